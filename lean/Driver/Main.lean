/-
  Line-protocol driver for the correspondence check.  Reads one operation per line on stdin,
  answers one line on stdout.  Imports the model only (core Lean), so it links as a `lean_exe`.
  `Float32` appears here and nowhere in the proved model.
-/
import AisVerif.Model.Sentence
import AisVerif.Model.Cli
import AisVerif.Spec.Layouts
import AisVerif.Model.F32

open AisVerif

namespace Driver

def hexDigit (n : Nat) : Char := if n < 10 then Char.ofNat (48 + n) else Char.ofNat (87 + n)

def hexOfBytes (bs : List UInt8) : String :=
  String.ofList (bs.flatMap fun b => [hexDigit (b.toNat / 16), hexDigit (b.toNat % 16)])

def hexNib (c : Char) : Option Nat :=
  if '0' ≤ c ∧ c ≤ '9' then some (c.toNat - 48)
  else if 'a' ≤ c ∧ c ≤ 'f' then some (c.toNat - 87)
  else if 'A' ≤ c ∧ c ≤ 'F' then some (c.toNat - 55)
  else none

def bytesOfHex (s : String) : Option (List UInt8) :=
  let rec go : List Char → List UInt8 → Option (List UInt8)
    | [], acc => some acc.reverse
    | [_], _ => none
    | a :: b :: rest, acc =>
      match hexNib a, hexNib b with
      | some x, some y => go rest (UInt8.ofNat (x * 16 + y) :: acc)
      | _, _ => none
  if s = "-" then some [] else go s.toList []

def hex32 (n : Nat) : String :=
  String.ofList ((List.range 8).map fun i => hexDigit ((n / 16 ^ (7 - i)) % 16))

/-- The IEEE single-precision computation the Rust code performs: the model's software binary32
    (`FOp.bits`, the function the theorems of `Props/C10` are about). -/
def f32Bits (raw : Int) (op : FOp) : UInt32 := UInt32.ofNat (FOp.bits raw op)

/-- The same computation on the hardware, through Lean's opaque `Float32` (cross-check only: op `F`). -/
def f32BitsNative (raw : Int) (op : FOp) : UInt32 :=
  let x : Float32 := Float32.ofInt raw
  let v : Float32 := match op with
    | .div10 => x / 10.0
    | .div600000 => x / 600000.0
    | .div600 => x / 600.0
    | .ident => x
    | .div600000mul1000 => (x / 600000.0) * 1000.0
  v.toBits

/-- `F lo hi`: number of raw values in `[lo, hi)` (offset by 2^28, so negative values are covered) on
    which the software binary32 and the hardware differ, over all five operations. -/
partial def f32Cross (lo hi : Nat) : String :=
  let ops := [FOp.div10, .div600000, .div600, .ident, .div600000mul1000]
  let rec go (i : Nat) (bad : Nat) : Nat :=
    if i < hi then
      let raw : Int := (i : Int) - 268435456
      go (i + 1) (ops.foldl (fun acc op => if f32Bits raw op = f32BitsNative raw op then acc else acc + 1) bad)
    else bad
  "ok " ++ toString (hi - lo) ++ " " ++ toString (go lo 0)

partial def keyName : Key → String
  | .idx base i => keyName base ++ "." ++ toString i
  | k =>
    let s := reprStr k
    match s.splitOn "." with
    | [] => s
    | parts => parts.getLast!

def renderVal : Val → String
  | .nat n => toString n
  | .int i => toString i
  | .bool b => if b then "true" else "false"
  | .none => "none"
  | .f32 raw op => "f:" ++ hex32 (f32Bits raw op).toNat
  | .text cs => "t:" ++ hexOfBytes cs
  | .bytes bs => "b:" ++ hexOfBytes bs
  | .sym name => name
  | .symN name n => name ++ "(" ++ toString n ++ ")"

def renderMsg (m : Msg) : String :=
  let kind := (reprStr m.kind).splitOn "." |>.getLast!
  m.fields.foldl (fun acc (k, v) => acc ++ " " ++ keyName k ++ "=" ++ renderVal v)
    (kind ++ " type_name=" ++ (m.kind.typeName.replace " " "_"))

def renderOptNat : Option Nat → String
  | none => "none"
  | some n => toString n

def renderSentence (s : Sentence) : String :=
  "talker=" ++ s.talker_id ++ " report=" ++ s.report_type ++ " nf=" ++ toString s.num_fragments ++
  " fn=" ++ toString s.fragment_number ++ " id=" ++ renderOptNat s.message_id ++
  " ch=" ++ (match s.channel with | none => "none" | some b => toString b.toNat) ++
  " data=" ++ hexOfBytes s.data ++ " fill=" ++ toString s.fill_bit_count ++
  " mt=" ++ toString s.message_type ++
  " hm=" ++ toString s.hasMore ++ " fr=" ++ toString s.isFragment ++
  " msg=" ++ (match s.message with | none => "none" | some m => renderMsg m)

def renderState (st : PState) : String :=
  "st=" ++ renderOptNat st.message_id ++ "," ++ toString st.fragment_number ++ "," ++ hexOfBytes st.data

def renderStep (r : Res Frag) (conv : String) : String :=
  match r with
  | .ok (.complete s) =>
    "C " ++ renderSentence s ++ (if conv = "o" then " conv=some:same" else " conv=ok:same")
  | .ok (.incomplete s) =>
    "I " ++ renderSentence s ++ (if conv = "o" then " conv=none" else " conv=err")
  | .err (.checksum e f) => "E cks " ++ toString e ++ " " ++ toString f
  | .err _ => "E nmea"
  | .panic _ => "panic"

def cfgOf (s : String) : Cfg :=
  if s = "noalloc" then .noalloc else if s = "alloc" then .alloc else .std

def tableOf (name : String) : Option (Nat → Val) :=
  if name = "epfd" then some EpfdType.parse
  else if name = "ship" then some ShipType.parse
  else if name = "nav" then some NavigationStatus.parse
  else if name = "man" then some ManeuverIndicator.parse
  else if name = "navaid" then some NavaidType.parse
  else if name = "sync" then some SyncState.parse
  else if name = "rot" then some RateOfTurn.parse
  else none

def resTableOf (name : String) : Option (Nat → Res Val) :=
  if name = "accuracy" then some Accuracy.parse
  else if name = "dte" then some Dte.from
  else if name = "assigned" then some AssignedMode.parse
  else if name = "cs" then some CarrierSense.parse
  else none

/-! ### exhaustive field sweeps (`X` op) -/

/-- The scaled-field table proved for each type (`Props/C10.lean`, `Props/C11.lean`). -/
def scaledOf (t : Nat) : List Spec.ScaledSpec :=
  if t = 1 ∨ t = 2 ∨ t = 3 then Spec.Scaled.t01
  else if t = 4 ∨ t = 11 then Spec.Scaled.t04
  else if t = 5 then Spec.Scaled.t05
  else if t = 9 then Spec.Scaled.t09
  else if t = 17 then Spec.Scaled.t17
  else if t = 18 ∨ t = 19 then Spec.Scaled.t18
  else if t = 21 then Spec.Scaled.t21
  else if t = 27 then Spec.Scaled.t27
  else []

def sweepLen (t : Nat) : Nat :=
  if t = 5 then 53 else if t = 19 then 39 else if t = 21 then 34 else if t = 27 then 12 else if t = 17 then 15 else 21

/-- Deterministic background payload: type in the first six bits, a fixed pattern elsewhere. -/
def background (t n : Nat) : List UInt8 :=
  (List.range n).map fun i => if i = 0 then UInt8.ofNat (t * 4) else UInt8.ofNat (((i * 37) % 256) ^^^ 0x5a)

def fnv (h : UInt64) (b : UInt64) : UInt64 := (h ^^^ b) * 1099511628211

def fnvVal (h : UInt64) (v : Option Val) : UInt64 × Nat :=
  match v with
  | some (.f32 raw op) =>
    let bits := (f32Bits raw op).toUInt64
    (fnv (fnv (fnv (fnv (fnv h 1) (bits &&& 255)) ((bits >>> 8) &&& 255)) ((bits >>> 16) &&& 255)) ((bits >>> 24) &&& 255), 0)
  | some .none => (fnv h 0, 1)
  | _ => (fnv h 2, 0)

/-- Mode `r`: `ScaledSpec.renderRaw` on the raw value itself (`render_eq_renderRaw`); no payload is built. -/
partial def sweepRaw (e : Spec.ScaledSpec) (lo hi : Nat) : String :=
  let rec go (raw : Nat) (h : UInt64) (absent : Nat) : UInt64 × Nat :=
    if raw < hi then
      let (h', a) := fnvVal h (some (e.renderRaw raw))
      go (raw + 1) h' (absent + a)
    else (h, absent)
  let (h, a) := go lo 14695981039346656037 0
  "ok " ++ toString (hi - lo) ++ " " ++ toString a ++ " " ++ toString h.toNat

/-- `X mode type index key off w lo hi`: every raw value in `[lo, hi)` of the `index`-th scaled field of
    the type, written into the background payload; mode `s` evaluates the specification
    (`ScaledSpec.render`) on that payload, mode `m` the whole model (`parseMessage`) and looks the field up. -/
partial def sweep (cfg : Cfg) (useModel : Bool) (t : Nat) (e : Spec.ScaledSpec) (lo hi : Nat) : String :=
  let n := sweepLen t
  let bg := background t n
  let b0 := e.off / 8
  let b1 := (e.off + e.w - 1) / 8
  let k := b1 - b0 + 1
  let sh := 8 * (b1 + 1) - (e.off + e.w)
  let pre := bg.take b0
  let post := bg.drop (b1 + 1)
  let midAll := ((bg.drop b0).take k).foldl (fun acc b => acc * 256 + b.toNat) 0
  let midBase := midAll - (((midAll >>> sh) % 2 ^ e.w) <<< sh)
  let rec go (raw : Nat) (h : UInt64) (absent : Nat) : UInt64 × Nat :=
    if raw < hi then
      let v := midBase + (raw <<< sh)
      let mid := (List.range k).map fun j => UInt8.ofNat ((v >>> (8 * (k - 1 - j))) % 256)
      let bs := pre ++ mid ++ post
      let val : Option Val :=
        if useModel then
          match parseMessage cfg bs with
          | .ok m => (m.fields.find? (fun kv => kv.1 == e.key)).map (·.2)
          | _ => none
        else some (e.render bs)
      let (h', a) := fnvVal h val
      go (raw + 1) h' (absent + a)
    else (h, absent)
  let (h, a) := go lo 14695981039346656037 0
  "ok " ++ toString (hi - lo) ++ " " ++ toString a ++ " " ++ toString h.toNat

structure St where
  cfg : Cfg
  slots : List PState

def getSlot (s : St) (k : Nat) : PState := s.slots.getD k PState.init
def setSlot (s : St) (k : Nat) (p : PState) : St :=
  { s with slots := (s.slots ++ List.replicate (k + 1 - s.slots.length) PState.init).set k p }

def handle (s : St) (line : String) : St × String :=
  match line.trimAscii.toString.splitOn " " with
  | ["U", fill, hex] =>
    match fill.toNat?, bytesOfHex hex with
    | some f, some bs =>
      (s, match unarmor s.cfg bs f with
        | .ok out => "ok " ++ hexOfBytes out
        | .err _ => "err"
        | .panic _ => "panic")
    | _, _ => (s, "bad-op")
  | ["M", hex] =>
    match bytesOfHex hex with
    | some bs =>
      (s, match parseMessage s.cfg bs with
        | .ok m => "ok " ++ renderMsg m
        | .err _ => "err"
        | .panic _ => "panic")
    | none => (s, "bad-op")
  | ["P", t, hex] =>
    match t.toNat?, bytesOfHex hex with
    | some t, some bs =>
      if (1 ≤ t ∧ t ≤ 21) ∨ t = 24 ∨ t = 27 then
        (s, match parseAs s.cfg t bs with
          | .ok m => "ok " ++ renderMsg m
          | .err _ => "err"
          | .panic _ => "panic")
      else (s, "bad-op")
    | _, _ => (s, "bad-op")
  | ["Q", kind, off, t, hex] =>
    match off.toNat?, t.toNat?, bytesOfHex hex with
    | some o, some t, some bs =>
      if o < 8 then
        let r := if kind = "radio" then parseRadio ⟨bs, o⟩ t
                 else if kind = "sotdma" then parseSotdma ⟨bs, o⟩ else parseItdma ⟨bs, o⟩
        (s, match r with
          | .ok (kv, c) =>
            kv.foldl (fun acc (k, v) => acc ++ " " ++ keyName k ++ "=" ++ renderVal v) "ok" ++ " rest=" ++ toString c.remaining
          | .err _ => "err"
          | .panic _ => "panic")
      else (s, "bad-op")
    | _, _, _ => (s, "bad-op")
  | ["F", lo, hi] =>
    match lo.toNat?, hi.toNat? with
    | some l, some h => (s, f32Cross l h)
    | _, _ => (s, "bad-op")
  | ["T", "rotrate", code] =>
    match code.toNat? with
    | some c =>
      -- `RateOfTurn { raw: c as i8 }.rate()`; the arithmetic is the driver's (single precision)
      let raw : Int := if c < 128 then c else (c : Int) - 256
      if RateOfTurn.parse c = .none then (s, "ok unavailable") else
      (s, match RateOfTurn.rateRaw raw with
        | .ok (some r) =>
          let x := F32.div (F32.ofInt r) (F32.lit 4733 1000)
          "ok f:" ++ hex32 (F32.mul x x)
        | .ok none => "ok none"
        | .err _ => "err"
        | .panic _ => "panic")
    | none => (s, "bad-op")
  | ["T", "rotdir", code] =>
    match code.toNat? with
    | some c =>
      let raw : Int := if c < 128 then c else (c : Int) - 256
      if RateOfTurn.parse c = .none then (s, "ok unavailable") else
      (s, match RateOfTurn.direction raw with
        | .ok (some d) => "ok " ++ d
        | .ok none => "ok none"
        | .err _ => "err"
        | .panic _ => "panic")
    | none => (s, "bad-op")
  | ["T", name, code] =>
    match code.toNat? with
    | some c =>
      match tableOf name, resTableOf name with
      | some f, _ =>
        let v := f c
        let back := if name = "ship" then
            " back=" ++ (match shipTypeToU8 v with | some n => toString n | none => "none")
          else ""
        (s, "ok " ++ renderVal v ++ back)
      | none, some f =>
        (s, match f c with
          | .ok v => "ok " ++ renderVal v
          | .err _ => "err"
          | .panic _ => "panic")
      | none, none => (s, "bad-op")
    | none => (s, "bad-op")
  | ["S", hex] =>
    match bytesOfHex hex with
    | some bs => (s, "ok " ++ toString (splitNewline bs).length ++ " " ++
        String.intercalate "," ((splitNewline bs).map fun l => if l.isEmpty then "-" else hexOfBytes l))
    | none => (s, "bad-op")
  | ["X", mode, t, idx, key, off, w, lo, hi] =>
    match t.toNat?, idx.toNat?, off.toNat?, w.toNat?, lo.toNat?, hi.toNat? with
    | some t, some idx, some off, some w, some lo, some hi =>
      match (scaledOf t)[idx]? with
      | some e =>
        -- the harness is told where the field is by the caller; it must be where the proved table says
        if e.off = off ∧ e.w = w ∧ keyName e.key = key ∧ hi ≤ 2 ^ w then
          if mode = "r" then (s, sweepRaw e lo hi)
          else if mode = "s" ∨ mode = "m" then (s, sweep s.cfg (mode = "m") t e lo hi)
          else (s, "bad-op")
        else (s, "bad-op")
      | none => (s, "bad-op")
    | _, _, _, _, _, _ => (s, "bad-op")
  | ["N", k] =>
    match k.toNat? with
    | some k => (setSlot s k PState.init, "ok")
    | none => (s, "bad-op")
  | ["L", k, dec, conv, hex] =>
    match k.toNat?, bytesOfHex hex with
    | some k, some bs =>
      let (st', r) := step s.cfg (getSlot s k) bs (dec = "1")
      (setSlot s k st', renderStep r conv ++ " " ++ renderState st')
    | _, _ => (s, "bad-op")
  | _ => (s, "bad-op")

partial def loop (h : IO.FS.Stream) (out : IO.FS.Stream) (s : St) : IO Unit := do
  let line ← h.getLine
  if line.isEmpty then return ()
  let (s', ans) := handle s line
  out.putStrLn ans
  loop h out s'

end Driver

def main (args : List String) : IO Unit := do
  let cfg := Driver.cfgOf (args.headD "std")
  let out ← IO.getStdout
  Driver.loop (← IO.getStdin) out { cfg, slots := [] }

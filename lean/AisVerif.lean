import AisVerif.Model.Sentence
import AisVerif.Refine.Dispatch
import AisVerif.Lemmas.Inv
import AisVerif.Props.C09
